package node

import (
	"bytes"
	"errors"
	"fmt"
	"io"
	"net"
	"os"
	"strings"
	"sync"
	"sync/atomic"
	"syscall"
	"testing"
	"time"

	gomavlib "github.com/bluenviron/gomavlib/v3"
	"github.com/bluenviron/gomavlib/v3/pkg/dialects/ardupilotmega"
	"github.com/bluenviron/gomavlib/v3/pkg/dialects/common"
	"github.com/bluenviron/gomavlib/v3/pkg/timednetconn"
	"pgregory.net/rapid"

	"verifharness/evid"
	"verifharness/ref"
	"verifharness/sim"
)

// ---------------- timednetconn ----------------

type connCall struct {
	op string
	t  time.Time // deadline for Set*, zero otherwise
	at time.Time
}

type recConn struct {
	mu        sync.Mutex
	calls     []connCall
	failSetAt int // fail the n-th Set*Deadline call (1-based), 0 never
	sets      int
	err       error
	// what the next wrapped Read / Write returns (nil: everything / one byte, no error) and what Write was given
	nextN   *int
	nextErr error
	given   [][]byte
}

func (c *recConn) log(op string, t time.Time) {
	c.mu.Lock()
	c.calls = append(c.calls, connCall{op, t, time.Now()})
	c.mu.Unlock()
}
func (c *recConn) Read(b []byte) (int, error) {
	c.log("Read", time.Time{})
	if c.nextN != nil {
		n, err := *c.nextN, c.nextErr
		c.nextN, c.nextErr = nil, nil
		return n, err
	}
	return 1, nil
}
func (c *recConn) Write(b []byte) (int, error) {
	c.log("Write", time.Time{})
	c.given = append(c.given, append([]byte(nil), b...))
	if c.nextN != nil {
		n, err := *c.nextN, c.nextErr
		c.nextN, c.nextErr = nil, nil
		if n > len(b) {
			n = len(b)
		}
		return n, err
	}
	return len(b), nil
}
func (c *recConn) Close() error         { c.log("Close", time.Time{}); return nil }
func (c *recConn) LocalAddr() net.Addr  { return &net.TCPAddr{} }
func (c *recConn) RemoteAddr() net.Addr { return &net.TCPAddr{} }
func (c *recConn) SetDeadline(t time.Time) error {
	c.log("SetDeadline", t)
	return nil
}
func (c *recConn) set(op string, t time.Time) error {
	c.log(op, t)
	c.sets++
	if c.failSetAt > 0 && c.sets == c.failSetAt {
		return c.err
	}
	return nil
}
func (c *recConn) SetReadDeadline(t time.Time) error  { return c.set("SetReadDeadline", t) }
func (c *recConn) SetWriteDeadline(t time.Time) error { return c.set("SetWriteDeadline", t) }

func TestC14Timednetconn(t *testing.T) {
	rec := evid.New(t, "C14", "generated sequences of Read/Write calls on timednetconn over a recording net.Conn: every Read must be immediately preceded by SetReadDeadline(now+readTimeout) and every Write by SetWriteDeadline(now+writeTimeout) armed afresh for that call (deadline within the wall-clock bracket of the call), a failing Set*Deadline is returned and the wrapped call skipped; non-trivial = sequence with both reads and writes; distinct by hash of the sequence")
	errSet := errors.New("injected deadline error")
	evid.Check(t, rec, evid.N(4000, 40000), func(t *rapid.T) {
		drawNodeInit(t)
		rt := time.Duration(rapid.IntRange(1, 5000).Draw(t, "rt_ms")) * time.Millisecond
		wt := time.Duration(rapid.IntRange(1, 5000).Draw(t, "wt_ms")) * time.Millisecond
		rc := &recConn{err: errSet, failSetAt: rapid.IntRange(0, 12).Draw(t, "fail_set_at")}
		c := timednetconn.New(rt, wt, rc)
		// R, W: the wrapped call does its job; Rz: the wrapped Read returns (0, nil) - an empty datagram; Re: it fails;
		// Wp: the wrapped Write takes part of the buffer and fails (a deadline on a slow link); We: it takes nothing
		ops := rapid.SliceOfN(rapid.SampledFrom([]string{"R", "W", "R", "W", "Rz", "Re", "Wp", "We"}), 1, 25).Draw(t, "ops")
		errWrapped := &net.OpError{Op: "io", Net: "tcp", Err: os.ErrDeadlineExceeded}
		sets := 0
		for i, fullOp := range ops {
			op := fullOp[:1]
			buf := []byte{byte(i), byte(i + 1), byte(i + 2), byte(i + 3), 0xA5, byte(i)}
			wantN, wantErr := 1, error(nil)
			if op == "W" {
				wantN = len(buf)
			}
			switch fullOp {
			case "Rz":
				z := 0
				rc.nextN, wantN = &z, 0
			case "Re", "We":
				z := 0
				rc.nextN, rc.nextErr, wantN, wantErr = &z, errWrapped, 0, errWrapped
			case "Wp":
				k := 1 + i%4
				rc.nextN, rc.nextErr, wantN, wantErr = &k, errWrapped, k, errWrapped
			}
			before := time.Now()
			mark := len(rc.calls)
			givenBefore := len(rc.given)
			var err error
			var gotN int
			if op == "R" {
				gotN, err = c.Read(make([]byte, 4))
			} else {
				gotN, err = c.Write(buf)
			}
			after := time.Now()
			sets++
			calls := rc.calls[mark:]
			wantSet, wantOp, to := "SetReadDeadline", "Read", rt
			if op == "W" {
				wantSet, wantOp, to = "SetWriteDeadline", "Write", wt
			}
			if len(calls) == 0 || calls[0].op != wantSet {
				t.Fatalf("op %d (%s): the wrapped %s was not preceded by %s armed for this call; calls: %v", i, op, wantOp, wantSet, calls)
			}
			if d := calls[0].t; d.Before(before.Add(to)) || d.After(after.Add(to)) {
				t.Fatalf("op %d (%s): deadline %v not in [%v, %v] (= call time + %v)", i, op, d, before.Add(to), after.Add(to), to)
			}
			if rc.failSetAt == sets {
				if err != errSet {
					t.Fatalf("op %d: %s failed but the call returned %v", i, wantSet, err)
				}
				if len(calls) != 1 {
					t.Fatalf("op %d: the wrapped %s was issued although arming the deadline failed", i, wantOp)
				}
				rc.nextN, rc.nextErr = nil, nil
				continue
			}
			if err != wantErr || gotN != wantN {
				t.Fatalf("op %d (%s of %v): the wrapped call returned (%d, %v), the wrapper returned (%d, %v): results are passed through as they are", i, fullOp, ops, wantN, wantErr, gotN, err)
			}
			if len(calls) != 2 || calls[1].op != wantOp {
				t.Fatalf("op %d (%s of %v): calls on the wrapped connection: %v (one armed deadline and one %s per call, nothing else)", i, fullOp, ops, calls, wantOp)
			}
			if op == "W" && (len(rc.given) != givenBefore+1 || !bytes.Equal(rc.given[givenBefore], buf)) {
				t.Fatalf("op %d (%s of %v): Write(%x) handed %x to the wrapped connection: each write carries what its caller gave it, nothing left over from earlier calls", i, fullOp, ops, buf, rc.given[givenBefore:])
			}
		}
		hasR, hasW := false, false
		for _, o := range ops {
			hasR = hasR || o[:1] == "R"
			hasW = hasW || o[:1] == "W"
		}
		rec.Case(hasR && hasW, evid.HashS(strings.Join(ops, ""), fmt.Sprint(rt, wt, rc.failSetAt)), "timednetconn")
	})
	rec.Sample("timednetconn", "R W W R with readTimeout 300ms writeTimeout 2s, SetWriteDeadline failing at the 2nd arming")
}

// ---------------- client endpoints ----------------

const (
	c14Reconnect = 60 * time.Millisecond
	c14Idle      = 300 * time.Millisecond
)

var c14HookOnce sync.Once

func c14Hook() {
	c14HookOnce.Do(func() { gomavlib.VerifSetReconnectPeriod(c14Reconnect) })
}

func c14ResetDeadline(c net.Conn) { c.SetReadDeadline(time.Time{}) } //nolint:errcheck

type lifeEvent struct {
	open bool
	t    time.Time
	err  error
}

// lifecycle extracts the open/close sequence of the only endpoint of a node.
func lifecycle(recs []sim.Rec) []lifeEvent {
	var out []lifeEvent
	for _, r := range recs {
		switch e := r.Ev.(type) {
		case *gomavlib.EventChannelOpen:
			out = append(out, lifeEvent{open: true, t: r.T})
		case *gomavlib.EventChannelClose:
			out = append(out, lifeEvent{open: false, t: r.T, err: e.Error})
		}
	}
	return out
}

func renderLife(l []lifeEvent) string {
	var b strings.Builder
	var t0 time.Time
	if len(l) > 0 {
		t0 = l[0].t
	}
	for _, e := range l {
		if e.open {
			fmt.Fprintf(&b, " [%v open]", e.t.Sub(t0).Round(time.Millisecond))
		} else {
			fmt.Fprintf(&b, " [%v close: %v]", e.t.Sub(t0).Round(time.Millisecond), e.err)
		}
	}
	return b.String()
}

// checkAlternation verifies Open/Close alternation, non-nil close errors and the reconnect delay.
func checkAlternation(l []lifeEvent, period time.Duration) error {
	for i, e := range l {
		if e.open != (i%2 == 0) {
			return fmt.Errorf("open/close events do not alternate (two channels of a one-channel endpoint at once, or a close without open):%s", renderLife(l))
		}
		if !e.open && e.err == nil {
			return fmt.Errorf("close event %d carries no error:%s", i, renderLife(l))
		}
		if e.open && i > 0 {
			// the two instants are the consumer's: if it was held up after taking the close event (so that it
			// stamped it late) the difference says nothing; any scheduling hiccup around them makes it inconclusive
			if gap := e.t.Sub(l[i-1].t); gap < period/2 && !stalls.StalledBetweenOver(l[i-1].t.Add(-2*period), e.t.Add(period), 6*time.Millisecond) {
				return fmt.Errorf("a fresh channel opened %v after the previous one closed; the reconnect delay is %v:%s", gap, period, renderLife(l))
			}
		}
	}
	return nil
}

type phase struct {
	kind string // down (nothing listens), eof, reset, idle, keepalive-then-eof
	down time.Duration
	n    int // frames sent before the end
}

func drawPhases(t *rapid.T, kinds []string) []phase {
	n := rapid.IntRange(2, 5).Draw(t, "nphases")
	var out []phase
	for i := 0; i < n; i++ {
		p := phase{kind: rapid.SampledFrom(kinds).Draw(t, "phase")}
		p.down = time.Duration(rapid.IntRange(10, 200).Draw(t, "down_ms")) * time.Millisecond
		p.n = rapid.IntRange(0, 5).Draw(t, "frames")
		out = append(out, p)
	}
	return out
}

// drawAllPhases returns every kind of `must` once, in a generated order, with "down" phases (failed
// connection attempts) inserted at generated places: every scenario covers every fault kind, so no
// class depends on luck.
func drawAllPhases(t *rapid.T, must []string) []phase {
	order := rapid.Permutation(must).Draw(t, "phase_order")
	var out []phase
	for _, k := range order {
		if rapid.IntRange(0, 2).Draw(t, "down_before") == 0 {
			out = append(out, phase{kind: "down", down: time.Duration(rapid.IntRange(10, 200).Draw(t, "down_ms")) * time.Millisecond})
		}
		out = append(out, phase{kind: k, n: rapid.IntRange(0, 5).Draw(t, "frames")})
	}
	return out
}

func phasesString(ps []phase) string {
	var s []string
	for _, p := range ps {
		if p.kind == "down" {
			s = append(s, fmt.Sprintf("down(%v)", p.down))
		} else {
			s = append(s, fmt.Sprintf("%s(%d frames)", p.kind, p.n))
		}
	}
	return strings.Join(s, " ")
}

func isTimeout(err error) bool {
	var ne net.Error
	return errors.As(err, &ne) && ne.Timeout()
}

// runTCPClient drives a TCP client endpoint through the phases; the harness plays the server.
func runTCPClient(phases []phase) error {
	c14Hook()
	port := sim.FreePort()
	n := &gomavlib.Node{Endpoints: []gomavlib.EndpointConf{gomavlib.EndpointTCPClient{Address: sim.Addr(port)}},
		Dialect: ardupilotmega.Dialect, OutVersion: gomavlib.V2, OutSystemID: 9, HeartbeatDisable: true,
		IdleTimeout: c14Idle, ReadTimeout: 500 * time.Millisecond}
	for _, ph := range phases {
		if ph.kind == "down" && ph.down >= 150*time.Millisecond {
			// a connect timeout shorter than the long outage: every attempt has its own time budget, however
			// long the run of failed attempts has lasted
			n.ReadTimeout = 120 * time.Millisecond
		}
	}
	if err := initNode(&n); err != nil {
		return fmt.Errorf("BROKEN: %v", err)
	}
	rec := sim.StartRecorder(n, sim.Pacing{Kind: "fast"}, nil)
	defer func() {
		closeNode(n, bound) //nolint:errcheck
		rec.WaitClosed(bound)
	}()
	var causes []string
	var lastPeerClose time.Time
	halfClosed := false
	var slow []bool
	accepted := 0
	var live int32
	for pi, ph := range phases {
		if ph.kind == "down" {
			time.Sleep(ph.down)
			continue
		}
		listenAt := time.Now() // the connection of this phase cannot be older than this
		l, err := net.Listen("tcp4", sim.Addr(port))
		if err != nil {
			return fmt.Errorf("BROKEN: listen: %v", err)
		}
		// A connection the peer accepts is not necessarily one the client got: its attempt has a time budget (the
		// connect timeout), and on a busy machine it can run out after the kernel completed the handshake; the
		// client then drops that connection and tries again later. So the listener stays until a connection has
		// turned into a channel; connections the client dropped without ever using them are not counted.
		var conn net.Conn
		opens := 0
		phaseDeadline := time.Now().Add(bound)
		for conn == nil {
			l.(*net.TCPListener).SetDeadline(phaseDeadline) //nolint:errcheck
			c, err := l.Accept()
			if err != nil {
				l.Close()
				return fmt.Errorf("phase %d: the client never connected again within %v (events:%s)", pi, bound, renderLife(lifecycle(rec.Snapshot())))
			}
			// measured on the peer's side, where no consumer is involved: the node cannot notice the end of a
			// connection before the peer ends it, and its next attempt comes a reconnect delay after it noticed
			if !lastPeerClose.IsZero() {
				if d := time.Since(lastPeerClose); d < c14Reconnect*9/10 {
					c.Close()
					l.Close()
					return fmt.Errorf("phase %d: the client connected again %v after the peer ended the previous connection; the reconnect delay is %v", pi, d, c14Reconnect)
				}
			}
			lastPeerClose = time.Time{}
			dropped := false
			for !dropped && time.Now().Before(phaseDeadline) {
				if rec.WaitFor(20*time.Millisecond, func(recs []sim.Rec) bool {
					opens = 0
					for _, e := range lifecycle(recs) {
						if e.open {
							opens++
						}
					}
					return opens >= accepted+1
				}) {
					conn = c
					break
				}
				// nothing is ever sent to the peer in this scenario: a read that ends means the client let go
				c.SetReadDeadline(time.Now().Add(5 * time.Millisecond)) //nolint:errcheck
				if _, rerr := c.Read(make([]byte, 1)); rerr != nil && !isTimeout(rerr) {
					dropped = true
				}
			}
			if conn == nil {
				c.Close()
				if !dropped {
					l.Close()
					return fmt.Errorf("phase %d: connection %d established and kept by the client but no open event within %v (opens=%d)", pi, accepted+1, bound, opens)
				}
			}
		}
		l.Close()
		c14ResetDeadline(conn)
		accepted++
		if atomic.AddInt32(&live, 1) > 1 {
			return fmt.Errorf("phase %d: a second connection arrived while the previous one was still open", pi)
		}
		for k := 0; k < ph.n; k++ {
			conn.Write(tagged(1, k, "debug", true, nil, 0).Bytes()) //nolint:errcheck
		}
		switch ph.kind {
		case "eof-longlived":
			time.Sleep(2 * c14Reconnect) // the connection lived longer than the reconnect delay
			lastPeerClose = time.Now()
			conn.Close()
			causes = append(causes, "eof")
		case "eof":
			lastPeerClose = time.Now()
			conn.Close()
			causes = append(causes, "eof")
		case "eof-halfclose":
			// the peer ends its stream and waits for the other side to end its own (shutdown(SHUT_WR)): the node
			// reads EOF like after a close, and has to let go of its side of the connection all the same
			lastPeerClose = time.Now()
			conn.(*net.TCPConn).CloseWrite() //nolint:errcheck
			halfClosed = true
			causes = append(causes, "eof")
		case "reset":
			conn.(*net.TCPConn).SetLinger(0) //nolint:errcheck
			lastPeerClose = time.Now()
			conn.Close()
			causes = append(causes, "reset")
		case "idle":
			causes = append(causes, "idle")
		}
		// on a busy machine the harness itself can take longer than the idle timeout to get from accepting
		// to closing; the node is then right to expire the connection first
		slow = append(slow, ph.kind != "idle" && time.Since(listenAt) > c14Idle*8/10)
		closes := 0
		ok := rec.WaitFor(bound, func(recs []sim.Rec) bool {
			closes = 0
			for _, e := range lifecycle(recs) {
				if !e.open {
					closes++
				}
			}
			return closes >= accepted
		})
		if ph.kind == "idle" {
			conn.Close()
		}
		if halfClosed && ok {
			halfClosed = false
			conn.SetReadDeadline(time.Now().Add(3 * time.Second)) //nolint:errcheck
			buf := make([]byte, 4096)
			var rerr error
			for rerr == nil {
				_, rerr = conn.Read(buf)
			}
			conn.Close()
			if isTimeout(rerr) {
				return fmt.Errorf("phase %d: the peer ended its stream (half-close) and waited; the node read EOF and reported the channel closed, but 3 s later its own side of that connection is still open - the transport of a closed channel has not been released (the endpoint reconnects beside it)", pi)
			}
		}
		atomic.AddInt32(&live, -1)
		if !ok {
			return fmt.Errorf("phase %d (%s): no close event within %v (events:%s)", pi, ph.kind, bound, renderLife(lifecycle(rec.Snapshot())))
		}
	}
	life := lifecycle(rec.Snapshot())
	if err := checkBrackets(rec.Snapshot()); err != nil {
		return err
	}
	if err := checkAlternation(life, c14Reconnect); err != nil {
		return err
	}
	ci := 0
	for _, e := range life {
		if e.open {
			continue
		}
		if ci >= len(causes) {
			break
		}
		if slow[ci] && isTimeout(e.err) {
			ci++
			continue
		}
		switch causes[ci] {
		case "eof":
			if !errors.Is(e.err, io.EOF) {
				return fmt.Errorf("peer closed the connection (EOF) but the close event says: %v", e.err)
			}
		case "reset":
			if !strings.Contains(e.err.Error(), "reset") && !errors.Is(e.err, io.EOF) {
				return fmt.Errorf("peer reset the connection but the close event says: %v", e.err)
			}
		case "idle":
			if !isTimeout(e.err) {
				return fmt.Errorf("connection expired by idle timeout but the close event says: %v", e.err)
			}
		}
		ci++
	}
	if ci != len(causes) {
		return fmt.Errorf("%d connection ends, %d close events:%s", len(causes), ci, renderLife(life))
	}
	opens := 0
	for _, e := range life {
		if e.open {
			opens++
		}
	}
	if opens != accepted {
		return fmt.Errorf("%d connections accepted by the peer, %d open events:%s", accepted, opens, renderLife(life))
	}
	return nil
}

// runUDPClient drives a UDP client endpoint: the harness plays a UDP server that answers for a while
// (the channel must stay open), falls silent (idle expiry) or is absent (ICMP refusals).
func runUDPClient(phases []phase) error {
	c14Hook()
	port := sim.FreePort()
	n := &gomavlib.Node{Endpoints: []gomavlib.EndpointConf{gomavlib.EndpointUDPClient{Address: sim.Addr(port)}},
		Dialect: ardupilotmega.Dialect, OutVersion: gomavlib.V2, OutSystemID: 9, HeartbeatPeriod: 15 * time.Millisecond,
		IdleTimeout: c14Idle}
	if err := initNode(&n); err != nil {
		return fmt.Errorf("BROKEN: %v", err)
	}
	rec := sim.StartRecorder(n, sim.Pacing{Kind: "fast"}, nil)
	defer func() {
		closeNode(n, bound) //nolint:errcheck
		rec.WaitClosed(bound)
	}()
	for pi, ph := range phases {
		if ph.kind == "down" {
			time.Sleep(ph.down) // nothing listens: heartbeats are refused, the channel closes and reopens
			continue
		}
		pc, err := net.ListenPacket("udp4", sim.Addr(port))
		if err != nil {
			return fmt.Errorf("BROKEN: listen udp: %v", err)
		}
		if ph.kind == "answer-then-vanish" {
			// the peer answers a few datagrams, then its socket disappears: from then on every heartbeat of the
			// node bounces (ICMP), which the client's read side sees as "connection refused" - that is the cause
			// the close event has to carry, and a fresh channel follows
			buf := make([]byte, 2048)
			answered := 0
			deadline := time.Now().Add(bound)
			for answered < 4 && time.Now().Before(deadline) {
				pc.SetReadDeadline(time.Now().Add(c14Idle / 4)) //nolint:errcheck
				if _, addr, rerr := pc.ReadFrom(buf); rerr == nil {
					pc.WriteTo(tagged(1, pi, "debug", true, nil, 0).Bytes(), addr) //nolint:errcheck
					answered++
				}
			}
			if answered < 4 {
				pc.Close()
				return fmt.Errorf("phase %d: the UDP client sent nothing for %v (no channel open?) events:%s", pi, bound, renderLife(lifecycle(rec.Snapshot())))
			}
			closesNow := 0
			for _, e := range lifecycle(rec.Snapshot()) {
				if !e.open {
					closesNow++
				}
			}
			vanishedAt := time.Now()
			pc.Close()
			if !rec.WaitFor(bound, func(recs []sim.Rec) bool {
				c := 0
				for _, e := range lifecycle(recs) {
					if !e.open {
						c++
					}
				}
				return c > closesNow
			}) {
				return fmt.Errorf("phase %d: the peer's socket vanished (every heartbeat is refused) but no close event within %v", pi, bound)
			}
			c := 0
			for _, e := range lifecycle(rec.Snapshot()) {
				if e.open {
					continue
				}
				c++
				if c == closesNow+1 {
					refused := e.err != nil && (errors.Is(e.err, syscall.ECONNREFUSED) || strings.Contains(e.err.Error(), "refused"))
					// (the refusal reaches whichever of the socket's users comes next: when the node's writer - which does
					// not act on write errors - takes it every time, the reader sees only silence, and after a whole idle
					// timeout of it the timeout is a true cause as well)
					if !refused && !(isTimeout(e.err) && (stalls.StalledBetween(vanishedAt, e.t) || e.t.Sub(vanishedAt) >= c14Idle*8/10)) {
						return fmt.Errorf("phase %d: the peer's socket vanished and the node's datagrams were refused, but the close event (%v later) says: %v (want the cause: connection refused)", pi, e.t.Sub(vanishedAt), e.err)
					}
				}
			}
			continue
		}
		// answer every datagram for a while: the channel that is open now must survive 4 idle timeouts
		closesBefore := 0
		for _, e := range lifecycle(rec.Snapshot()) {
			if !e.open {
				closesBefore++
			}
		}
		buf := make([]byte, 2048)
		start := time.Now()
		var firstFrom time.Time
		stalled := false
		last := time.Now()
		var lastAnswer time.Time
		answers := 0
		var maxGap time.Duration // longest time between two answers: the node can only be expected to stay if it kept hearing something
		// the window starts with the first datagram of the node (a fresh channel after the reconnect delay); on a
		// starved machine that can take long, and it is not what this phase is about
		for (firstFrom.IsZero() && time.Since(start) < bound) || (!firstFrom.IsZero() && time.Since(firstFrom) < 3*c14Idle+c14Reconnect*3) {
			pc.SetReadDeadline(time.Now().Add(c14Idle / 4)) //nolint:errcheck
			_, addr, rerr := pc.ReadFrom(buf)
			if time.Since(last) > c14Idle/2 || stalls.StalledBetween(last, time.Now()) {
				stalled = true // the harness or the whole process was held up: the "stayed open" verdict is inconclusive
			}
			last = time.Now()
			if rerr == nil {
				if firstFrom.IsZero() {
					firstFrom = time.Now()
				}
				if !lastAnswer.IsZero() && time.Since(lastAnswer) > maxGap {
					maxGap = time.Since(lastAnswer)
				}
				lastAnswer = time.Now() // before the write: the node cannot have read this answer earlier
				if answers%3 == 1 {
					pc.WriteTo([]byte{}, addr) //nolint:errcheck // an empty datagram (a keep-alive, a NAT hole punch): no data, no error
				}
				answers++
				pc.WriteTo(tagged(1, pi, "debug", true, nil, 0).Bytes(), addr) //nolint:errcheck
			}
		}
		if firstFrom.IsZero() {
			pc.Close()
			return fmt.Errorf("phase %d: the UDP client sent nothing for %v (no channel open?) events:%s", pi, time.Since(start), renderLife(lifecycle(rec.Snapshot())))
		}
		// closes that happened after the first answered datagram + one reconnect cycle are violations - unless the
		// answers themselves came too far apart (the node's own datagrams, which they answer, were held up)
		if maxGap > c14Idle/2 {
			stalled = true
		}
		if !stalled {
			for _, e := range lifecycle(rec.Snapshot()) {
				if !e.open && e.t.After(firstFrom.Add(c14Reconnect*3)) {
					pc.Close()
					return fmt.Errorf("phase %d: the channel was closed (%v) although the peer answered every datagram (idle timeout %v) events:%s", pi, e.err, c14Idle, renderLife(lifecycle(rec.Snapshot())))
				}
			}
		}
		// now fall silent but keep the socket: idle expiry with a timeout error
		// the silence is measured from the last answer, not from the end of the loop: on a busy machine the
		// two can be far apart, and the node's idle clock starts when it reads that answer
		silentFrom := lastAnswer
		closesNow := 0
		for _, e := range lifecycle(rec.Snapshot()) {
			if !e.open {
				closesNow++
			}
		}
		ok := rec.WaitFor(bound, func(recs []sim.Rec) bool {
			c := 0
			for _, e := range lifecycle(recs) {
				if !e.open {
					c++
				}
			}
			return c > closesNow
		})
		pc.Close()
		if !ok {
			return fmt.Errorf("phase %d: silent UDP peer but no idle expiry within %v", pi, bound)
		}
		life := lifecycle(rec.Snapshot())
		for _, e := range life {
			if !e.open && e.t.After(silentFrom) {
				if !isTimeout(e.err) {
					return fmt.Errorf("phase %d: silent peer, close event says %v (want a timeout)", pi, e.err)
				}
				if d := e.t.Sub(silentFrom); d < c14Idle*7/10 && !stalled && !stalls.StalledBetweenOver(silentFrom.Add(-c14Idle), e.t, c14Idle/4) {
					return fmt.Errorf("phase %d: closed after %v of silence, idle timeout %v", pi, d, c14Idle)
				}
				break
			}
		}
		_ = closesBefore
	}
	if err := checkBrackets(rec.Snapshot()); err != nil {
		return err
	}
	return checkAlternation(lifecycle(rec.Snapshot()), c14Reconnect)
}

var serialCounter int64

// runSerial drives a serial endpoint (hooked opener): open failures and read failures.
func runSerial(phases []phase) error {
	c14Hook()
	dev := fmt.Sprintf("/dev/ttyC14_%d", atomic.AddInt64(&serialCounter, 1))
	var mu sync.Mutex
	failOpens := 0
	opened := 0
	attempts := 0 // every call of the opener, successful or not
	twoHandles := ""
	var cur *sim.Pipe
	serialDevices.Store(dev, func() (io.ReadWriteCloser, error) {
		mu.Lock()
		defer mu.Unlock()
		attempts++
		if failOpens > 0 {
			failOpens--
			return nil, errors.New("injected open failure")
		}
		if cur != nil && !cur.Released() {
			twoHandles = fmt.Sprintf("open call %d: the device is opened again while the previous handle (handle %d) has not been released yet - its Close has not returned: two transports of a one-channel endpoint at once", attempts, opened)
		}
		opened++
		cur = sim.NewPipe()
		return cur, nil
	})
	defer serialDevices.Delete(dev)
	n := &gomavlib.Node{Endpoints: []gomavlib.EndpointConf{gomavlib.EndpointSerial{Device: dev, Baud: 57600}},
		Dialect: ardupilotmega.Dialect, OutVersion: gomavlib.V2, OutSystemID: 9, HeartbeatDisable: true}
	if err := initNode(&n); err != nil {
		return fmt.Errorf("BROKEN: %v", err)
	}
	rec := sim.StartRecorder(n, sim.Pacing{Kind: "fast"}, nil)
	defer func() {
		closeNode(n, bound) //nolint:errcheck
		rec.WaitClosed(bound)
	}()
	ends := 0
	var injected []error
	for pi, ph := range phases {
		if ph.kind == "down" {
			mu.Lock()
			failOpens += int(ph.down/c14Reconnect) + 1
			mu.Unlock()
			continue
		}
		// wait for the channel of this phase
		if !rec.WaitFor(bound, func(recs []sim.Rec) bool {
			o := 0
			for _, e := range lifecycle(recs) {
				if e.open {
					o++
				}
			}
			return o >= ends+1
		}) {
			return fmt.Errorf("phase %d: no fresh channel within %v after %d ends (events:%s)", pi, bound, ends, renderLife(lifecycle(rec.Snapshot())))
		}
		mu.Lock()
		p := cur
		mu.Unlock()
		framesBefore := 0
		for _, r := range rec.Snapshot() {
			if _, ok := r.Ev.(*gomavlib.EventFrame); ok {
				framesBefore++
			}
		}
		for k := 0; k < ph.n; k++ {
			p.Feed(tagged(1, k, "debug", true, nil, 0).Bytes())
		}
		// all of this phase's frames must have surfaced before the fault (a stalled consumer would otherwise
		// keep the reader parked on a frame event and the read fault would never be seen)
		if !rec.WaitFor(bound, func(recs []sim.Rec) bool {
			k := 0
			for _, r := range recs {
				if _, ok := r.Ev.(*gomavlib.EventFrame); ok {
					k++
				}
			}
			return k >= framesBefore+ph.n
		}) {
			return fmt.Errorf("phase %d: frames fed to the serial channel did not surface", pi)
		}
		ierr := fmt.Errorf("injected serial read error %d", pi)
		injected = append(injected, ierr)
		if ph.kind == "longlived-readerr" {
			// the channel lives well beyond the reconnect delay before its fault: the delay still applies afterwards
			time.Sleep(2*c14Reconnect + time.Duration(ph.n)*10*time.Millisecond)
		}
		if ph.kind == "blockedwrite-readerr" {
			// the writer is parked inside the transport when the read side fails: the channel must still close
			p.BlockWrites()
			n.WriteMessageAll(&common.MessageDebug{TimeBootMs: uint32(pi)}) //nolint:errcheck
			if !p.WaitParkedWriter(bound) {
				return fmt.Errorf("BROKEN: writer did not reach the transport")
			}
		}
		if ph.kind == "writefail-then-readerr" {
			// the last write before the read fault fails: the close event must still carry the read error
			p.FailNextWrite(errors.New("injected serial write error"))
			n.WriteMessageAll(&common.MessageDebug{TimeBootMs: uint32(pi)}) //nolint:errcheck
			p.WaitWriteCalls(p.WriteCalls()+0, 50*time.Millisecond)
			time.Sleep(3 * time.Millisecond)
		}
		if ph.kind == "readerr-slowclose" {
			// releasing the device takes longer than the reconnect delay (a port draining its output queue)
			p.SetCloseDelay(3 * c14Reconnect)
		}
		if ph.kind == "readerr-closefails" {
			// the device is gone: closing it reports an error of its own; why the channel ended is the read error
			p.FailClose(fmt.Errorf("injected close error %d", pi))
		}
		stalled := ph.kind == "readerr-stalled"
		mu.Lock()
		opensBefore := attempts
		mu.Unlock()
		if stalled {
			rec.Pause() // the application stops consuming events: the close event stays undelivered
			if !rec.WaitPaused(bound) {
				return fmt.Errorf("BROKEN: consumer did not park")
			}
		}
		p.FailReads(ierr)
		if stalled {
			time.Sleep(5 * c14Reconnect)
			mu.Lock()
			opensNow := attempts
			mu.Unlock()
			rec.Resume()
			if opensNow != opensBefore {
				return fmt.Errorf("phase %d: the endpoint tried to open the device again (%d -> %d open calls) while the close event of the previous channel had not been delivered yet: two channels of a one-channel endpoint at once", pi, opensBefore, opensNow)
			}
		}
		ends++
		if !rec.WaitFor(bound, func(recs []sim.Rec) bool {
			c := 0
			for _, e := range lifecycle(recs) {
				if !e.open {
					c++
				}
			}
			return c >= ends
		}) {
			return fmt.Errorf("phase %d: read error injected but no close event (events:%s)", pi, renderLife(lifecycle(rec.Snapshot())))
		}
	}
	life := lifecycle(rec.Snapshot())
	if err := checkBrackets(rec.Snapshot()); err != nil {
		return err
	}
	if err := checkAlternation(life, c14Reconnect); err != nil {
		return err
	}
	mu.Lock()
	th := twoHandles
	mu.Unlock()
	if th != "" {
		return fmt.Errorf("%s", th)
	}
	ci := 0
	for _, e := range life {
		if !e.open && ci < len(injected) {
			if !errors.Is(e.err, injected[ci]) {
				return fmt.Errorf("close event %d carries %v, the transport failed with %v", ci, e.err, injected[ci])
			}
			ci++
		}
	}
	return nil
}

// serialDevices routes the hooked opener (see c12_test.go) for C14 devices.
var serialDevices sync.Map

func init() {
	serialRegistryFallback = func(device string) (io.ReadWriteCloser, error, bool) {
		if f, ok := serialDevices.Load(device); ok {
			rwc, err := f.(func() (io.ReadWriteCloser, error))()
			return rwc, err, true
		}
		return nil, nil, false
	}
}

func TestC14Clients(t *testing.T) {
	rec := evid.New(t, "C14", "client-type endpoints under generated fault sequences: TCP client against a harness server that is down for a while (failed connection attempts), accepts and then ends the connection by EOF, reset or silence (idle timeout); serial endpoint (hooked opener) whose open fails several times and whose reads fail with an injected error; oracles: strictly alternating open/close events (never two channels at once), every close event carries an error matching the injected cause, a fresh channel opens after every close but not earlier than the reconnect delay, connections seen by the peer == open events; non-trivial = >=2 consecutive failures including a failed connect; distinct by hash of the phases")
	rec.Require("tcp-client", "serial", "udp-client", "failed-connect-then-failure", "idle-expiry", "reset", "consumer-stalled-across-close", "write-failure-before-read-fault", "fault-after-long-lived-channel", "read-fault-while-writer-blocked", "udp-peer-vanishes", "outage-longer-than-connect-timeout", "closing-the-failed-device-fails-too", "releasing-the-device-takes-longer-than-the-reconnect-delay")
	evid.Check(t, rec, evid.N(12, 60), func(t *rapid.T) {
		drawNodeInit(t)
		// several independent sub-scenarios run concurrently to use the waiting time
		type sub struct {
			kind   string
			phases []phase
			err    error
		}
		// one scenario of each endpoint kind per case, each going through every fault kind of its endpoint
		subs := []*sub{
			{kind: "tcp-client", phases: drawAllPhases(t, []string{"eof", "reset", "idle", "eof-longlived", "eof-halfclose"})},
			{kind: "serial", phases: drawAllPhases(t, []string{"readerr", "readerr-stalled", "writefail-then-readerr", "longlived-readerr", "blockedwrite-readerr", "readerr-closefails", "readerr-slowclose"})},
			{kind: "udp-client", phases: drawAllPhases(t, []string{"answer-then-silent", "answer-then-vanish"})},
		}
		// the first TCP scenario always contains an outage longer than its connect timeout, somewhere after its
		// first connection (runTCPClient shortens the connect timeout when it sees such a phase)
		{
			ph := subs[0].phases
			at := rapid.IntRange(1, len(ph)).Draw(t, "long_outage_at")
			long := phase{kind: "down", down: time.Duration(rapid.IntRange(150, 260).Draw(t, "long_outage_ms")) * time.Millisecond}
			subs[0].phases = append(append(append([]phase{}, ph[:at]...), long), ph[at:]...)
		}
		if rapid.Bool().Draw(t, "extra_tcp") {
			subs = append(subs, &sub{kind: "tcp-client", phases: drawPhases(t, []string{"down", "eof", "eof", "reset", "idle", "eof-longlived", "eof-halfclose"})})
		}
		if rapid.Bool().Draw(t, "extra_serial") {
			subs = append(subs, &sub{kind: "serial", phases: drawPhases(t, []string{"down", "readerr", "readerr-stalled", "writefail-then-readerr", "blockedwrite-readerr", "readerr-closefails", "readerr-slowclose"})})
		}
		var wg sync.WaitGroup
		for _, s := range subs {
			wg.Add(1)
			go func(s *sub) {
				defer wg.Done()
				s.err = watchdog(scenarioLimit, func() error {
					switch s.kind {
					case "tcp-client":
						return runTCPClient(s.phases)
					case "udp-client":
						return runUDPClient(s.phases)
					}
					return runSerial(s.phases)
				})
			}(s)
		}
		wg.Wait()
		for _, s := range subs {
			desc := s.kind + ": " + phasesString(s.phases)
			if s.err != nil {
				evid.ReplayNote("C14", "TestC14Clients", desc+"\n"+s.err.Error())
				t.Fatalf("%s\n%v", desc, s.err)
			}
			cls := []string{s.kind}
			nt := false
			for i, p := range s.phases {
				if p.kind == "down" && i+1 < len(s.phases) && s.phases[i+1].kind != "down" && i > 0 {
					nt = true
				}
				if p.kind == "idle" {
					cls = append(cls, "idle-expiry")
				}
				if p.kind == "reset" {
					cls = append(cls, "reset")
				}
				if p.kind == "answer-then-vanish" {
					cls = append(cls, "udp-peer-vanishes")
				}
				if s.kind == "tcp-client" && p.kind == "down" && p.down >= 150*time.Millisecond {
					cls = append(cls, "outage-longer-than-connect-timeout")
				}
				if p.kind == "readerr-stalled" {
					cls = append(cls, "consumer-stalled-across-close")
				}
				if p.kind == "writefail-then-readerr" {
					cls = append(cls, "write-failure-before-read-fault")
				}
				if p.kind == "longlived-readerr" {
					cls = append(cls, "fault-after-long-lived-channel")
				}
				if p.kind == "blockedwrite-readerr" {
					cls = append(cls, "read-fault-while-writer-blocked")
				}
				if p.kind == "readerr-closefails" {
					cls = append(cls, "closing-the-failed-device-fails-too")
				}
				if p.kind == "readerr-slowclose" {
					cls = append(cls, "releasing-the-device-takes-longer-than-the-reconnect-delay")
				}
			}
			if nt {
				cls = append(cls, "failed-connect-then-failure")
			}
			rec.Case(nt, evid.HashS(desc), cls...)
			if nt && rec.WantSample(s.kind) {
				rec.Sample(s.kind, desc)
			}
		}
	})
}

// ---------------- server endpoints ----------------

// first[i] says what the first bytes of peer i are: a whole frame, junk that is no frame marker, or the tail of a
// frame (a peer that was already talking when the node started); a peer gets its channel whatever it says first.
func runServer(udp bool, peers, first []string) error {
	port := sim.FreePort()
	var ep gomavlib.EndpointConf = gomavlib.EndpointTCPServer{Address: sim.Addr(port)}
	network := "tcp4"
	if udp {
		ep = gomavlib.EndpointUDPServer{Address: sim.Addr(port)}
		network = "udp4"
	}
	n := &gomavlib.Node{Endpoints: []gomavlib.EndpointConf{ep}, Dialect: ardupilotmega.Dialect, OutVersion: gomavlib.V2,
		OutSystemID: 9, HeartbeatDisable: true, IdleTimeout: c14Idle}
	if err := initNode(&n); err != nil {
		return fmt.Errorf("BROKEN: %v", err)
	}
	rec := sim.StartRecorder(n, sim.Pacing{Kind: "fast"}, nil)
	defer func() {
		rec.Resume()
		closeNode(n, bound) //nolint:errcheck
		rec.WaitClosed(bound)
	}()
	// with an odd number of peers the application takes no events for one and a half idle timeouts in the middle of
	// the run: the readers are held up meanwhile, but a peer that kept sending has been idle for no time at all
	// when they go on - the deadline of a read starts when that read starts
	if len(peers)%2 == 1 {
		go func() {
			time.Sleep(c14Idle)
			rec.Pause()
			time.Sleep(c14Idle * 3 / 2)
			rec.Resume()
		}()
	}
	type res struct {
		label     string
		kind      string
		silentAt  time.Time
		stalled   bool
		keepUntil time.Time
	}
	results := make([]*res, len(peers))
	var wg sync.WaitGroup
	for i, kind := range peers {
		wg.Add(1)
		go func(i int, kind string) {
			defer wg.Done()
			time.Sleep(time.Duration(i) * 7 * time.Millisecond)
			beforeDial := time.Now()
			p, err := sim.Dial(network, sim.Addr(port))
			if err != nil {
				results[i] = &res{kind: "BROKEN: " + err.Error()}
				return
			}
			r := &res{label: p.LocalLabel(udp), kind: kind}
			results[i] = r
			// taken before the connection exists: a TCP channel's idle clock starts when it is accepted (not with
			// the first byte), a UDP channel's with its first datagram; neither can be earlier than this
			r.silentAt = beforeDial
			hello := tagged(byte(i+1), 0, "debug", true, nil, 0).Bytes()
			switch first[i] {
			case "junk":
				hello = []byte{0x01, 0x02, byte(i)}
			case "frame-tail":
				hello = hello[len(hello)/2:]
				if hello[0] == 0xFD || hello[0] == 0xFE {
					hello[0] = 0x11
				}
			}
			p.Send(hello) //nolint:errcheck
			switch kind {
			case "leave":
				time.Sleep(20 * time.Millisecond)
				p.Close()
				return
			case "silent":
				time.Sleep(c14Idle*3 + 200*time.Millisecond)
			case "keepalive":
				end := time.Now().Add(5 * c14Idle)
				last := time.Now()
				k := 1
				for time.Now().Before(end) {
					time.Sleep(c14Idle / 4)
					// the verdict "closed although it kept sending" needs the node to have had every chance: the gap
					// between two keepalives plus whatever delays the datagram on its way to the reader must stay well
					// below the idle timeout, so a late sender (nominal gap idle/4) or any scheduling gap of 20 ms and
					// more in this process makes the case inconclusive
					if time.Since(last) > c14Idle/3 || stalls.StalledBetweenOver(last, time.Now(), 20*time.Millisecond) {
						r.stalled = true // the sender or the whole process was held up: inconclusive
					}
					last = time.Now()
					if udp && k%2 == 0 {
						p.Send([]byte{}) //nolint:errcheck // an empty datagram between the frames: no data, no error, no reason to close
					}
					if udp && k%3 == 1 {
						// a peer that batches: 8..12 frames of 40 bytes in one datagram (320..480 bytes, frame boundaries
						// at every multiple of 40) - more than one frame's worth, well within what a datagram may carry
						var batch []byte
						for j := 0; j < 8+(i+k)%5; j++ {
							bf := ref.Frame{V2: true, Seq: byte(j), Sys: 50 + byte(i+1), Comp: 9, ID: rawTagID, Payload: make([]byte, 28), Checksum: 0x1111}
							bf.Payload[0], bf.Payload[27] = byte(k), 1
							batch = append(batch, bf.Bytes()...)
						}
						p.Send(batch) //nolint:errcheck
					}
					if i%2 == 1 {
						// a peer that keeps talking without ever saying a frame (a terminal, a wrongly configured
						// device): rejected input, received all the same - the link is not idle
						p.Send([]byte{0x11, 0x22, byte(k) & 0x7F}) //nolint:errcheck
					} else {
						p.Send(tagged(byte(i+1), k, "debug", true, nil, 0).Bytes()) //nolint:errcheck
					}
					k++
				}
				r.keepUntil = time.Now()
			}
			p.Close()
		}(i, kind)
	}
	wg.Wait()
	time.Sleep(30 * time.Millisecond)
	recs := rec.Snapshot()
	for i, r := range results {
		if strings.HasPrefix(r.kind, "BROKEN") {
			return fmt.Errorf("%s", r.kind)
		}
		var openT, closeT time.Time
		var cerr error
		opens, closes := 0, 0
		var ch *gomavlib.Channel
		for _, e := range recs {
			switch ev := e.Ev.(type) {
			case *gomavlib.EventChannelOpen:
				if ev.Channel.String() == r.label {
					opens++
					openT = e.T
					ch = ev.Channel
				}
			case *gomavlib.EventChannelClose:
				if ev.Channel == ch && ch != nil {
					closes++
					closeT = e.T
					cerr = ev.Error
				}
			}
		}
		if r.kind == "keepalive" && r.stalled && opens >= 1 {
			continue // an expiry and a second channel are legitimate when the keepalives were held up
		}
		if opens != 1 {
			return fmt.Errorf("peer %d (%s, %s): %d open events, want its own single channel (server must keep accepting)", i, r.kind, r.label, opens)
		}
		_ = openT
		switch r.kind {
		case "leave":
			if !udp {
				if closes != 1 || cerr == nil {
					return fmt.Errorf("peer %d disconnected: %d close events (err %v)", i, closes, cerr)
				}
				if !errors.Is(cerr, io.EOF) && !strings.Contains(cerr.Error(), "reset") {
					return fmt.Errorf("peer %d disconnected but the close event says: %v", i, cerr)
				}
			}
		case "silent":
			if closes != 1 {
				return fmt.Errorf("peer %d was silent for %v (idle timeout %v) but its channel was not closed", i, c14Idle*3, c14Idle)
			}
			if !isTimeout(cerr) {
				return fmt.Errorf("peer %d expired by idle timeout but the close event says: %v", i, cerr)
			}
			if d := closeT.Sub(r.silentAt); d < c14Idle*8/10 {
				return fmt.Errorf("peer %d closed after %v of silence, the idle timeout is %v", i, d, c14Idle)
			}
		case "keepalive":
			if r.stalled {
				continue
			}
			if closes > 0 && closeT.Before(r.keepUntil) {
				return fmt.Errorf("peer %d kept sending every %v but its channel was closed after %v (idle timeout %v): %v", i, c14Idle/4, closeT.Sub(openT), c14Idle, cerr)
			}
		}
	}
	return nil
}

func TestC14Servers(t *testing.T) {
	rec := evid.New(t, "C14", "TCP and UDP server endpoints with 2..5 generated peers that leave, fall silent (idle expiry after ~IdleTimeout with a timeout error) or keep sending every IdleTimeout/4 for 5 x IdleTimeout (must stay open; discarded as inconclusive when the sender itself stalled); every peer gets its own channel whatever its first bytes are (a frame, junk, the tail of a frame) and accepting continues; non-trivial = a silent and a keepalive peer together; distinct by hash of the peer list")
	rec.Require("tcp-server", "udp-server", "silent+keepalive", "udp-peer-whose-first-datagram-is-no-frame", "consumer-pauses-longer-than-the-idle-timeout")
	evid.Check(t, rec, evid.N(8, 30), func(t *rapid.T) {
		drawNodeInit(t)
		type sub struct {
			udp   bool
			peers []string
			first []string
			err   error
		}
		var subs []*sub
		for i := 0; i < 4; i++ {
			s := &sub{udp: i%2 == 1}
			s.peers = rapid.Permutation([]string{"leave", "silent", "keepalive"}).Draw(t, "peers")
			s.peers = append(s.peers, rapid.SliceOfN(rapid.SampledFrom([]string{"leave", "silent", "keepalive"}), 0, 2).Draw(t, "more_peers")...)
			s.first = rapid.SliceOfN(rapid.SampledFrom([]string{"frame", "frame", "junk", "frame-tail"}), len(s.peers), len(s.peers)).Draw(t, "first_bytes")
			subs = append(subs, s)
		}
		var wg sync.WaitGroup
		for _, s := range subs {
			wg.Add(1)
			go func(s *sub) {
				defer wg.Done()
				s.err = watchdog(scenarioLimit, func() error { return runServer(s.udp, s.peers, s.first) })
			}(s)
		}
		wg.Wait()
		for _, s := range subs {
			desc := fmt.Sprintf("udp=%v peers=%v firstBytes=%v", s.udp, s.peers, s.first)
			if s.err != nil {
				evid.ReplayNote("C14", "TestC14Servers", desc+"\n"+s.err.Error())
				t.Fatalf("%s\n%v", desc, s.err)
			}
			cls := []string{"tcp-server"}
			if s.udp {
				cls = []string{"udp-server"}
			}
			hs, hk := false, false
			for _, p := range s.peers {
				hs = hs || p == "silent"
				hk = hk || p == "keepalive"
			}
			if hs && hk {
				cls = append(cls, "silent+keepalive")
			}
			for _, f := range s.first {
				if s.udp && f != "frame" {
					cls = append(cls, "udp-peer-whose-first-datagram-is-no-frame")
					break
				}
			}
			if len(s.peers)%2 == 1 {
				cls = append(cls, "consumer-pauses-longer-than-the-idle-timeout")
			}
			rec.Case(hs && hk, evid.HashS(desc), cls...)
			if rec.WantSample(cls[0]) {
				rec.Sample(cls[0], desc)
			}
		}
	})
}
