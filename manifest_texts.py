"""Per-property manifest texts."""
HOOK_COMMITS = []
NOT_APPLICABLE = {}
LEVEL_NOTE = "trusted base: harness/ref (independent reference written from the MAVLink serialization guide, std-lib only), Go toolchain/std-lib, rapid; generated-input search, no proof of absence"
TEXTS = {
    "C01": {
        "technique": "property-based testing (rapid) against an independent reference serializer + complete enumeration of header bytes, lengths and message ids",
        "level_text": "exploration: hundreds of thousands of generated frames over the whole field space are written by the real frame.Writer, compared byte for byte with an independent serializer and read back; finite sub-spaces (each header byte, every payload length, every v1 id, all 2^24 v2 ids in the thorough tier) are enumerated completely; unrepresentable frames must be refused with zero bytes emitted",
        "design_ref": "DESIGN.md section 4 / C01",
        "level_note": LEVEL_NOTE,
    },
}
