"""Per-property manifest texts."""
HOOK_COMMITS = []
NOT_APPLICABLE = {}
LEVEL_NOTE = "trusted base: harness/ref (independent reference written from the MAVLink serialization guide, std-lib only), Go toolchain/std-lib, rapid; generated-input search, no proof of absence"
def _t(technique, level_text, ref):
    return {"technique": technique, "level_text": level_text, "design_ref": "DESIGN.md section 4 / " + ref, "level_note": LEVEL_NOTE}


TEXTS = {
    "C02": _t("exhaustive enumeration of the CRC step function + property-based fault injection (every single-bit flip) judged by a consumed-span oracle against a reference CRC/CRC_EXTRA",
              "exploration with a complete sub-space: all 2^24 (register, byte) pairs of the hash agree with a bitwise CRC-16/MCRF4XX; generated dialect frames encoded and checksummed by the reference must be delivered; every single-bit flip, substitutions, swapped checksum bytes and foreign CRC_EXTRA are fed to the real reader and a frame may be delivered only if the bytes consumed are a frame the reference accepts", "C02"),
    "C05": _t("property-based testing over a stream grammar with chunking and transport-fault injection (metamorphic: splitting independence) + exhaustive small-alphabet streams",
              "exploration: generated streams (valid, truncated, damaged, junk, glued) are fed whole, byte-wise, in generated chunks and with an injected transport error; no panic, progress per call, exact correspondence between each returned frame and the bytes consumed (reference parser), identical results across splittings, completeness on clean streams; all streams over a 6-symbol marker-rich alphabet up to length 6/7 are enumerated; tlog.Reader totality", "C05"),
    "C06": _t("property-based testing against an independent SHA-256 signature formula + exhaustive single-bit tampering per generated frame",
              "exploration: reference-signed frames must be delivered; v1, unsigned, other-key (1 bit), rotated-signature and every single-bit flip of the signed frame must give parse errors and no frame; frames emitted by keyed frame.Writer/streamwriter.Writer (and by a keyed Node, see C09 node part) are parsed by the reference and must verify by the formula with the configured link id and a timestamp inside the call's wall-clock bracket", "C06"),
    "C07": _t("model-based testing: exhaustive histories over a boundary alphabet + rapid histories against a big-integer model of the replay window",
              "exploration with a complete sub-space: all 13^4 (13^5 thorough) timestamp histories over a boundary alphabet and tens of thousands of generated histories of correctly signed frames; every accept / too-old decision must equal the model 'refuse iff newest - ts > 1,000,000'; writer timestamps are bracketed by the wall clock and non-decreasing", "C07"),
    "C08": _t("property-based multi-hop round trip (metamorphic: forwarding invariance) with reference checksum validation + FixFrame edit/forward/accept",
              "exploration: generated raw frames and dialect messages in canonical and six non-canonical encoding families go through 1..4 reader->writer hops with the dialect present or absent per hop; header fields preserved, bytes identical on dialect-less hops, checksum valid for the payload actually sent and same decoded message on dialect hops; edited frames passed through Node.FixFrame must be accepted by the next hop (with the outgoing key as incoming key when signed)", "C08"),
    "C09": _t("stateful property-based testing (operation histories with refused writes) parsed by the reference; exhaustive initialization combinations",
              "exploration: histories of up to 700 writes (decoded, raw in-dialect, refused) on streamwriter.Writer / frame.Writer.WriteMessage; the i-th emitted frame must carry seq i mod 256, the configured ids, version, zero compat flags, reference checksum/payload, signature when keyed; refused writes emit nothing; all 36 initialization combinations on the stream writer and the Node", "C09"),
    "C20": _t("property-based round trip with exhaustive crash-point (every truncation offset) and write-fault enumeration",
              "exploration + fault enumeration: generated logs are compared byte for byte with BE64(us) ++ reference frame bytes, read back, then cut at every byte offset (reader must return exactly the complete entries, then an error); unencodable entries must leave the file untouched; an io.Writer failing at a generated call must be reported", "C20"),
    "C01": {
        "technique": "property-based testing (rapid) against an independent reference serializer + complete enumeration of header bytes, lengths and message ids",
        "level_text": "exploration: hundreds of thousands of generated frames over the whole field space are written by the real frame.Writer, compared byte for byte with an independent serializer and read back; finite sub-spaces (each header byte, every payload length, every v1 id, all 2^24 v2 ids in the thorough tier) are enumerated completely; unrepresentable frames must be refused with zero bytes emitted",
        "design_ref": "DESIGN.md section 4 / C01",
        "level_note": LEVEL_NOTE,
    },
}
